"""C09 -- Session and handlers are safe under the supported concurrency pattern (DESIGN.md section 6 / C09).

 model side : spec/Conc.tla -- one process per goroutine (packet loop, purge, API callers, handler
              loops, closer), explicit session / row RW locks with Go's writer preference, every action
              one lock operation or one critical section with its access set.  TLC (spec/ConcMC.tla):
                * explores all interleavings of bounded instances (scenarios stale / ipchange / dup / mix /
                  two, 0-2 API callers performing any API call, handler flags): NoDeadlock (TLC's deadlock
                  check, AllDone is the only terminal state), LockOrder, NoPanic, C05 structure whenever
                  nobody holds the session write lock, CloseStops;
                * computes the set of racing site pairs of the model (RaceLog; RaceFree is the claim that
                  this set is empty -- it is not, on the lock discipline of the code);
                * is expected to refute PurgeDeleteStale and C05_OnlineImpliesMacOnline at quiescent points
                  (counterexamples = the schedules forced first);
                * proves RaceFree, PurgeDeleteStale and C05 at quiescence for the repaired discipline (Fixed);
                * enumerates every schedule of the gate-granular instance for replay.
 code side  : harness/cmd/concdrv built with -race -tags verif, one child process per run.
              (A) schedule replay through packet.VerifGate (hooks/packet_gates.patch; skipped when the tree
                  under test does not carry the gate calls): final tables compared with the state TLC
                  reached, C05 at every quiescent point, deletion of a refreshed host, race reports;
              (B) seeded multi-core stress: packet loop (ReadFrom/Parse/handlers/Notify) + VerifPurge +
                  API callers + StartHunt/StopHunt/IsHunting/MinuteTicker + Close, GOMAXPROCS 1..8.
              Quiescent table projections are validated by TLC against the C05 predicates (spec/ConcQ.tla).
 verdict    : race reports normalised to unordered `function/field` pairs (checks/conc_common.py);
              listed pairs (known_findings.d/C09.json) -> KNOWN-FINDING, any other pair, any deadlock,
              panic, fatal error, C05 failure at quiescence or goroutine alive after Close -> VIOLATION
              (after it showed again on a re-run).
"""
import json
import os
import random
import re
import signal
import subprocess
import time
from concurrent.futures import ThreadPoolExecutor

import vlib
import conc_common as cc

LEVEL = "model_checking"
MEMQ = {"tlc2.tool.queue.IStateQueue": "MemStateQueue"}
ALL_OPS = ["FindIP", "GetHosts", "PrintTable", "IPAddrs", "FindByMAC", "FindMACEntry", "IsCaptured", "DHCPv4IPOffer",
           "Capture", "Release", "SetDHCPv4IPOffer"]
BASE_INV = ["TypeOK", "RaceLog", "LockOrder", "NoPanic", "C05_StructureUnlessWriter"]


def cfg(scenario, spec="MCSpec", api=(), ops=ALL_OPS, inv=BASE_INV, fixed=False, handlers=False, deadlock=True, offgate=False, nested=False):
    return ("SPECIFICATION %s\nCONSTANTS\n  MACs = {1, 2}\n  IPs = {1, 2}\n  NoIP = 0\n  NoProc = \"none\"\n"
            "  Scenario = \"%s\"\n  Frames <- MC_Frames\n  InitHosts <- MC_InitHosts\n  ApiProcs = {%s}\n  ApiOps = {%s}\n"
            "  FrameTime = 10\n  PurgeNow = 10\n  OfflineD = 2\n  PurgeD = 4\n  Handlers = %s\n  Fixed = %s\n  OfflineGate = %s\n  NestedRLock = %s\n"
            "INVARIANTS %s\nCHECK_DEADLOCK %s\n" %
            (spec, scenario, ", ".join('"%s"' % a for a in api), ", ".join('"%s"' % o for o in ops),
             "TRUE" if handlers else "FALSE", "TRUE" if fixed else "FALSE", "TRUE" if offgate else "FALSE", "TRUE" if nested else "FALSE", " ".join(inv),
             "TRUE" if deadlock else "FALSE"))


def run_tlc(ctx, name, text, workers=4, timeout=1500):
    r = vlib.tlc(ctx, "ConcMC", cfg=name + ".cfg", files={name + ".cfg": text}, workers=workers, timeout=timeout,
                 heap="6g", jprops=MEMQ)
    return r


TMP = [""]      # scratch directory handed to the child processes (set by run / replay)


def pairs_of(r):
    """race pairs computed by the model, in the key format of the race reports: Type.field:funcA~funcB"""
    out = set()
    for x in r.json:
        if isinstance(x, dict) and "pair" in x:
            sites = sorted(x["pair"]["sites"])
            if len(sites) == 1:
                sites = sites * 2
            field = sites[0].split("/")[1]
            if field == "list" and x["pair"]["t"] == "AddrList":
                field = "list"
            funcs = sorted(z.split("/")[0] for z in sites)
            out.add("%s.%s:%s~%s" % (x["pair"]["t"], field, funcs[0], funcs[1]))
    return out


def model_runs(ctx, offgate=False):
    """Model-level TLC runs. Returns (predicted race pairs, schedules for replay, coverage dict, states, transitions).
    offgate: the tree carries the optional gate purge.offline, schedules may stop there."""
    quick = ctx.quick
    cov = {}
    predicted = set()
    states = trans = 0

    def must_pass(name, text, workers=4, timeout=1500):
        nonlocal states, trans
        r = run_tlc(ctx, name, text, workers, timeout)
        if not r.ok:
            raise vlib.InfraError("ConcMC %s: model-level failure violated=%s error=%s\n%s" % (name, r.violated, r.error, r.out[-3000:]))
        cov[name] = r.summary()
        states += r.distinct
        trans += r.generated
        return r

    def must_fail(name, text, inv, workers=1):
        nonlocal states, trans
        r = run_tlc(ctx, name, text, workers, 600)
        cex = [x for x in r.json if isinstance(x, dict) and "cex" in x]
        cov[name] = dict(r.summary(), expected_counterexample=cex[0] if cex else None)
        if r.violated != inv:
            raise vlib.InfraError("ConcMC %s: expected a counterexample to %s, got violated=%s error=%s" % (name, inv, r.violated, r.error))
        states += r.distinct
        trans += r.generated
        return r

    # (1) all interleavings of the code's discipline: race pairs, lock order, deadlock, panic, structure
    plan = [("mc_stale", "stale", (), ALL_OPS), ("mc_dup", "dup", (), ALL_OPS), ("mc_returning", "returning", (), ALL_OPS),
            ("mc_ipchange_api1", "ipchange", ("api1",), ALL_OPS),
            ("mc_apionly_api2", "apionly", ("api1", "api2"), ALL_OPS)]
    if not quick:
        plan += [("mc_mix_api1", "mix", ("api1",), ALL_OPS), ("mc_two_api1", "two", ("api1",), ALL_OPS), ("mc_dup_api1", "dup", ("api1",), ALL_OPS),
                 ("mc_stale_api2", "stale", ("api1", "api2"), ALL_OPS)]
    for name, sc, api, ops in plan:
        r = must_pass(name, cfg(sc, api=api, ops=ops), workers=8 if name == "mc_stale_api2" else 4, timeout=2400)
        predicted |= pairs_of(r)
    # handler flags and hunt lists (protocol of bc9b0bc / f0fba2f / 96b01bc): race free, Close stops the loops, no double close
    must_pass("mc_handlers", cfg("none", handlers=True, inv=["TypeOK", "RaceFree", "LockOrder", "CloseStops", "NoPanic"]), workers=4)
    if not predicted:
        raise vlib.InfraError("ConcMC computed no race pair for the lock discipline of the code (vacuous model?)")
    # (2) expected counterexamples
    must_fail("mc_racefree_cex", cfg("stale", inv=["RaceFree"]), "RaceFree")
    must_fail("mc_purgedeletestale_cex", cfg("stale", inv=["PurgeDeleteStaleX"]), "PurgeDeleteStaleX")
    must_fail("mc_c05online_cex", cfg("ipchange", inv=["C05_OnlineAtQuiescenceX"]), "C05_OnlineAtQuiescenceX")
    # a re-entrant row read lock (shape of an accessor that locks for itself under the caller's RLock) deadlocks under Go's
    # writer preference: the lock model must find it
    must_fail("mc_nested_rlock_deadlock", cfg("ipchange", inv=["TypeOK"], nested=True), "Deadlock", workers=2)
    # Session.Close while purge / the packet loop still notify: send on the closed channel
    must_fail("mc_close_panic_cex", cfg("ipchange", handlers=True, inv=["NoPanicX"]), "NoPanicX")
    # (3) the repaired discipline is race free, deletes only stale hosts, keeps C05 at quiescence
    fixed_inv = ["TypeOK", "RaceFree", "LockOrder", "NoPanic", "C05_StructureUnlessWriter", "PurgeDeleteStale", "C05_AtQuiescence"]
    for sc in ["stale", "ipchange", "dup", "mix"]:
        must_pass("fixed_" + sc, cfg(sc, fixed=True, inv=fixed_inv), workers=2)
    must_pass("fixed_ipchange_api1", cfg("ipchange", api=("api1",), fixed=True, inv=fixed_inv))
    # (4) every schedule of the gate-granular instance
    schedules = []
    gplan = [("stale", (), ALL_OPS), ("ipchange", (), ALL_OPS), ("dup", (), ALL_OPS), ("mix", (), ALL_OPS),
             ("returning", (), ALL_OPS), ("twoold", (), ALL_OPS),
             ("stale", ("api1",), ["GetHosts", "PrintTable", "FindMACEntry", "Capture"]),
             ("ipchange", ("api1",), ["GetHosts", "PrintTable"])]
    if not quick:
        gplan += [("two", (), ALL_OPS), ("mix", ("api1",), ["GetHosts", "PrintTable", "FindMACEntry", "SetDHCPv4IPOffer"]),
                  ("dup", ("api1",), ["FindIP", "IPAddrs", "FindByMAC", "IsCaptured", "Release"]),
                  ("returning", ("api1",), ["GetHosts", "PrintTable", "IPAddrs", "FindMACEntry"])]
    for sc, api, ops in gplan:
        name = "gg_%s%s" % (sc, "_api" if api else "")
        r = must_pass(name, cfg(sc, spec="GGSpec", api=api, ops=ops, inv=["TypeOK", "LockOrder", "NoPanic", "GGExport"], deadlock=False,
                                offgate=offgate), workers=1)
        for x in r.json:
            if isinstance(x, dict) and "sched" in x:
                x["final"]["hosts"] = sorted(x["final"]["hosts"], key=lambda h: h["ip"])
                x["final"]["macs"] = sorted(x["final"]["macs"], key=lambda m: m["mac"])
                x["init"] = sorted(x["init"], key=lambda h: h["ip"])
                schedules.append(x)
    return predicted, schedules, cov, states, trans


# ---------------------------------------------------------------------------------------------
# child processes

def child(binary, args, timeout):
    """Run one concdrv process. Returns (rc, stdout, stderr, timed_out). On a timeout the process gets
    SIGQUIT first (Go prints all goroutines) and is then killed."""
    env = dict(os.environ)
    env["GORACE"] = "exitcode=0 history_size=6"
    env["VERIF_TMP"] = TMP[0]
    p = subprocess.Popen([binary] + [str(a) for a in args], env=env, stdout=subprocess.PIPE, stderr=subprocess.PIPE, text=True,
                         errors="replace")
    try:
        so, se = p.communicate(timeout=timeout)
        return p.returncode, so, se, False
    except subprocess.TimeoutExpired:
        p.send_signal(signal.SIGQUIT)
        try:
            so, se = p.communicate(timeout=10)
        except subprocess.TimeoutExpired:
            p.kill()
            so, se = p.communicate()
        return p.returncode, so, se, True


def _stable(msg):
    """panic text without the numbers and addresses that differ from run to run"""
    return re.sub(r"\s+", " ", re.sub(r"0x[0-9a-f]+|\d+", "N", msg))[:60].strip()


def stress_args(i, seed, quick):
    s = seed * 100000 + i
    return {"seed": s, "mix": i % 4, "procs": [4, 2, 8, 1, 4, 8, 2, 4][i % 8], "ms": (260 if quick else 400) + (i % 5) * 60}


def run_stress(binary, a):
    rc, so, se, to = child(binary, ["-mode", "stress", "-seed", a["seed"], "-mix", a["mix"], "-procs", a["procs"], "-ms", a["ms"]],
                           timeout=90)
    return analyse(a, rc, so, se, to)


def run_minute(binary):
    a = {"mode": "minute"}
    rc, so, se, to = child(binary, ["-mode", "minute"], timeout=150)
    return analyse(a, rc, so, se, to)


def analyse(a, rc, so, se, timed_out, need_result=True):
    """Events of one child run: list of (key, what, detail)."""
    ev = []
    res = None
    for ln in reversed(so.strip().splitlines()):
        try:
            res = json.loads(ln)
            break
        except ValueError:
            continue
    for r in cc.parse_races(se):
        if r.get("partial"):
            continue            # truncated stack: no site, counted nowhere
        ev.append(("C09:race:" + r["key"], "data race %s (%s) / %s (%s) at %s" %
                   (r["a"], r["kinds"][0], r["b"], r["kinds"][1], " ".join(r.get("lines", []))), r["raw"][:2500]))
    fatal = cc.parse_fatal(se)
    if fatal:
        ev.append(("C09:fatal:%s:%s" % (fatal["msg"], fatal["func"]), "runtime fatal error: " + fatal["msg"], fatal["raw"]))
    mp = re.search(r"^CONC-PANICS (\[.*\])$", se, re.M)
    if mp:
        try:
            for p in json.loads(mp.group(1)):
                ev.append(("C09:panic:%s:%s" % (_stable(p["msg"]), p.get("top", "")), "panic in %s: %s" % (p["where"], p["msg"]), json.dumps(p)))
        except ValueError:
            pass
    dl = cc.parse_deadlock(se)
    if dl:
        ev.append(("C09:deadlock:" + dl["stuck"], "no progress (%s); blocked on a lock: %s" % (dl["why"], dl["blocked"]), dl["raw"]))
    elif timed_out:
        ev.append(("C09:deadlock:timeout", "driver did not finish", se[-4000:]))
    pe = cc.parse_panic_exit(se)
    if pe and not fatal:
        ev.append(("C09:panic:%s:%s" % (_stable(pe["msg"]), pe["func"]), "unrecovered panic: " + pe["msg"], pe["raw"]))
    if res:
        for p in res.get("panics") or []:
            ev.append(("C09:panic:%s:%s" % (_stable(p["msg"]), p.get("top", "")), "panic in %s: %s" % (p["where"], p["msg"]), json.dumps(p)))
        for f in res.get("alive") or []:
            ev.append(("C09:alive:" + f, "goroutine still running after Close: " + f, f))
    elif need_result and not (fatal or dl or pe or timed_out):
        raise vlib.InfraError("concdrv gave no result (rc=%s)\n%s" % (rc, se[-3000:]))
    return {"args": a, "events": ev, "result": res}


# ---------------------------------------------------------------------------------------------
def snapshots_to_tlc(ctx, snaps):
    """Validate quiescent projections with TLC (spec/ConcQ.tla). snaps: list of (id, hosts, macs).
    Returns ({id: [failed predicates]}, states)."""
    if not snaps:
        return {}, 0
    p = os.path.join(ctx.scratch, "snapshots.ndjson")
    vlib.write_ndjson(p, [{"id": i, "hosts": h, "macs": m} for i, h, m in snaps])
    r = vlib.tlc(ctx, "ConcQ", cfg="ConcQ.cfg", files={"snapshots.ndjson": p}, workers=1, timeout=900, heap="4g")
    m = re.search(r'<<"C05CHECKED", (\d+)>>', r.out)
    if not r.ok or not m or int(m.group(1)) != len(snaps):
        raise vlib.InfraError("ConcQ validation failed:\n" + r.out[-3000:])
    bad = {}
    for i, f in re.findall(r'<<"C05FAIL", (\d+), "(\w+)">>', r.out):
        bad.setdefault(int(i), []).append(f)
    return bad, r.distinct


def abs_to_snap(st):
    st = {"hosts": st.get("hosts") or [], "macs": st.get("macs") or []}
    hosts = [{"ip": "a%d" % h["ip"], "mac": "m%d" % h["mac"], "on": h["online"]} for h in st["hosts"]]
    macs = [{"mac": "m%d" % m["mac"], "on": m["online"], "list": ["a%d" % x for x in (m["list"] or [])]} for m in st["macs"]]
    return hosts, macs


def stress_snap(s):
    hosts = [{"ip": h["ip"], "mac": h["mac"], "on": h["on"]} for h in s["hosts"]]
    macs = [{"mac": m["mac"], "on": m["on"], "list": m["list"] or []} for m in s["macs"]]
    return hosts, macs


def run_replay(ctx, binary, schedules, label, chunk=400):
    """Returns None when the tree carries no gates, else (results by (index, pass), events, stderr).
    The schedules are replayed by several child processes (one chunk each, four at a time)."""
    chunks = [schedules[i:i + chunk] for i in range(0, len(schedules), chunk)]

    def one(k):
        sp = os.path.join(ctx.scratch, "%s.%d.schedules" % (label, k))
        with open(sp, "w") as f:
            for i, s in enumerate(chunks[k]):
                f.write(json.dumps(dict(s, id=k * chunk + i)) + "\n")
        return child(binary, ["-mode", "replay", "-schedule", sp], timeout=120 + len(chunks[k]) * 2)

    with ThreadPoolExecutor(max_workers=4) as ex:
        outs = list(ex.map(one, range(len(chunks))))
    res, events, errs = {}, [], []
    for rc, so, se, to in outs:
        lines = []
        for x in so.strip().splitlines():
            if x.startswith("{"):
                try:
                    lines.append(json.loads(x))
                except ValueError:      # a driver that died (panic, kill) leaves a truncated last line
                    pass
        if lines and lines[-1].get("gates") is False:
            return None
        an = analyse({"mode": "replay", "schedules": label}, rc, "", se, to, need_result=False)
        if (not lines or not lines[-1].get("gates")) and not an["events"]:
            raise vlib.InfraError("replay driver gave no result (rc=%s)\n%s" % (rc, se[-3000:]))
        res.update({(x["id"], x["pass"]): x for x in lines if "id" in x})
        events += an["events"]
        errs.append(se)
    return res, events, "\n".join(errs)


def run(ctx):
    cov = ctx.coverage
    quick = ctx.quick
    learn = os.environ.get("VERIF_C09_LEARN")
    # the tag verifticker compiles only on a tree that carries hooks/packet_verif_ticker.patch (packet.VerifMinute)
    fast_tick = True
    try:
        binary = vlib.go_build(ctx, "concdrv", race=True, tags="verif verifticker")
    except vlib.InfraError:
        fast_tick = False
        binary = vlib.go_build(ctx, "concdrv", race=True)
    TMP[0] = ctx.scratch
    rc, so, se, to = child(binary, ["-mode", "gates"], timeout=60)
    try:
        gates = json.loads(so.strip().splitlines()[-1])
    except (ValueError, IndexError):
        raise vlib.InfraError("concdrv -mode gates gave no answer (rc=%s)\n%s" % (rc, se[-2000:]))
    predicted, schedules, tlccov, states, trans = model_runs(ctx, offgate=bool(gates.get("purge.offline")))
    cov["tlc"] = tlccov
    cov["gates"] = gates
    cov["model_race_pairs"] = sorted(predicted)
    events = {}        # key -> {"what", "detail", "count", "where": [args]}

    def note(key, what, detail, where):
        e = events.setdefault(key, {"what": what, "detail": detail, "count": 0, "where": []})
        e["count"] += 1
        if len(e["where"]) < 4:
            e["where"].append(where)

    snaps = []          # (id, hosts, macs) for TLC
    snap_src = {}
    # ---- (A) schedule replay
    rng = random.Random(ctx.seed)
    sel = list(schedules)
    rng.shuffle(sel)
    # the schedules TLC refutes PurgeDeleteStale / C05 with go first
    first = [s for s in sel if s["qbad"]][:40] + [s for s in sel if s["staleDel"] and not s["qbad"]][:80]
    rest = [s for s in sel if not any(s is f for f in first)]
    sel = (first + rest)[:(400 if quick else 4000)]
    rep = run_replay(ctx, binary, sel, "replay")
    rcov = {"schedules_exported": len(schedules), "gates_present": rep is not None}
    if rep is None:
        rcov["skipped"] = "the tree under test does not call verifGate at foc.upgrade / ot.mid / notify.write / purge.delete " \
                          "(hooks/packet_gates.patch not applied): schedule replay skipped"
    else:
        results, evs, _ = rep
        for key, what, detail in evs:
            w = {"mode": "replay"}
            mm = re.search(r"schedule (\d+):", what)
            if mm and int(mm.group(1)) < len(sel):
                w["schedule"] = sel[int(mm.group(1))]
            note(key, what, detail, w)
        conform = drift = stale_pred = stale_seen = c05_pred = c05_seen = 0
        drifts = []
        for i, s in enumerate(sel):
            r1, r2 = results.get((i, "race")), results.get((i, "state"))
            if r1 is None or r2 is None:
                continue
            for r in (r1, r2):
                for p in r.get("panics") or []:
                    note("C09:panic:%s:replay" % _stable(p["msg"]), "panic while replaying a schedule: " + p["msg"], json.dumps(p), {"mode": "replay", "schedule": s})
            for r in (r1, r2):
                r["final"] = {"hosts": r["final"].get("hosts") or [], "macs": r["final"].get("macs") or []}
            if r1["diverged"] or r2["diverged"] or r1["final"] != s["final"] or r2["final"] != s["final"]:
                drift += 1
                if len(drifts) < 3:
                    drifts.append({"schedule": s["sched"], "scenario": s["scenario"], "model": s["final"], "real": r1["final"], "diverged": r1["diverged"]})
            else:
                conform += 1
            stale_pred += bool(s["staleDel"])
            if r1["staleDel"] or r2["staleDel"]:
                stale_seen += 1
                note("C09:KF_PurgeDeleteStale", "purge deleted a host that the packet loop had refreshed after purge's scan "
                     "(decision taken under the row lock, deletion later under the session lock without re-check)", "",
                     {"mode": "replay", "schedule": s})
            c05_pred += bool(s["qbad"])
            sid = len(snaps)
            h, m = abs_to_snap(r2["final"])
            snaps.append((sid, h, m))
            snap_src[sid] = {"mode": "replay", "schedule": s, "point": "final"}
            for f in r2.get("c05") or []:
                idx, which = f.split(":")
                c05_seen += 1
                note("C09:C05:" + which, "C05 predicate %s fails at a quiescent point of a replayed schedule (after command %s)" % (which, idx),
                     "", {"mode": "replay", "schedule": s, "point": int(idx)})
        rcov.update({"replayed": len(sel), "final_state_equal_to_model": conform, "drift": drift, "drift_samples": drifts,
                     "purge_delete_stale_predicted": stale_pred, "purge_delete_stale_reproduced": stale_seen,
                     "c05_quiescent_failure_predicted": c05_pred, "c05_quiescent_failures_seen": c05_seen})
    cov["replay"] = rcov
    # ---- (B) stress
    nruns = 64 if quick else 900
    runs = [stress_args(i, ctx.seed, quick) for i in range(nruns)]
    # Close while the purge started by the session's own ticker is still running: a real minute unless the tree carries
    # the ticker hook (then in both tiers); without the hook thorough tier only
    do_minute = fast_tick or not quick
    with ThreadPoolExecutor(max_workers=8) as ex:
        fm = ex.submit(run_minute, binary) if do_minute else None
        outs = list(ex.map(lambda a: run_stress(binary, a), runs))
        if fm is not None:
            outs.append(fm.result())
    cov["minute_ticker_scenario"] = {"run": do_minute, "ticker_hook": fast_tick,
                                     "result": (outs[-1]["result"] or {}).get("replay") if do_minute else
                                     "skipped in the quick tier: the tree has no ticker hook (hooks/packet_verif_ticker.patch), the scenario takes 65 s"}
    frames = ops = notes = 0
    for o in outs:
        for key, what, detail in o["events"]:
            note(key, what, detail, o["args"])
        r = o["result"]
        if r:
            frames += r.get("frames", 0)
            notes += r.get("notes", 0)
            ops += sum((r.get("ops") or {}).values())
            for s in r.get("snapshots") or []:
                sid = len(snaps)
                h, m = stress_snap(s)
                snaps.append((sid, h, m))
                snap_src[sid] = dict(o["args"], phase=s["phase"])
    bad, qstates = snapshots_to_tlc(ctx, snaps)
    for sid, fs in bad.items():
        for f in fs:
            note("C09:C05:" + f, "C05 predicate %s fails on the tables projected at a quiescent point" % f, json.dumps(snaps[sid][1:]), snap_src[sid])
    # ---- verdicts
    observed = sorted(k for k in events if k.startswith("C09:race:"))
    if learn:
        json.dump({k: {"what": v["what"], "count": v["count"]} for k, v in events.items()}, open(learn, "w"), indent=1)
    unlisted = []
    for key, e in sorted(events.items()):
        if learn:
            break
        listed = any(k.get("status") == "open" and vlib._key_match(k["key"], key) for k in ctx.known)
        if listed:
            for _ in range(e["count"]):
                ctx.report(key, e["what"], None)
            continue
        # not listed: show it again before reporting (a handful of reproduced violations settles the verdict;
        # further unlisted events are recorded without being re-run)
        if len(ctx.violations) >= 4 or len(unlisted) >= 6:
            cov.setdefault("unlisted_not_rechecked", []).append(key)
            continue
        if reproduce(ctx, binary, key, e):
            ctx.report(key, e["what"], {"key": key, "where": e["where"], "detail": e["detail"]})
        else:
            unlisted.append(key)
    obs_pairs = {k[len("C09:race:"):] for k in observed}
    wild = [k["key"] for k in ctx.known if k.get("status") == "open" and k["key"].endswith("*")]
    specific = {k["key"] for k in ctx.known if not k["key"].endswith("*")}
    cov["new_pairs_of_known_root_causes"] = sorted(k for k in observed if k not in specific and any(vlib._key_match(w, k) for w in wild))
    cov.update({
        "states": states + qstates, "transitions": trans + qstates,
        "traces_validated_against_impl": (cov["replay"].get("replayed", 0) * 2) + len(snaps),
        "stress": {"runs": nruns, "frames": frames, "api_calls": ops, "notifications": notes, "quiescent_snapshots_validated_by_tlc": len(snaps)},
        "race_pairs_observed": sorted(obs_pairs), "race_pairs_observed_count": len(obs_pairs),
        "race_pairs_predicted_count": len(predicted),
        "race_pairs_predicted_and_observed": sorted(obs_pairs & predicted),
        "race_pairs_predicted_not_observed": sorted(predicted - obs_pairs),
        "race_pairs_observed_outside_model": sorted(obs_pairs - predicted),
        "evaluations": nruns + cov["replay"].get("replayed", 0) * 2,
        "distinct_nontrivial": len({vlib.digest(s["sched"]) for s in sel}) + nruns,
        "rule": "one case = one replayed schedule of the gate-granular TLA+ instance (distinct by command list) or one seeded "
                "stress run (distinct by seed / goroutine mix / GOMAXPROCS); every one executes the packet loop concurrently "
                "with purge and API callers under the race detector",
        "samples": [{"schedule": sel[0]}, {"stress": runs[0]}, {"race_pairs": sorted(obs_pairs)[:5]}],
        "exhaustive": False,
    })
    ctx.assumptions += [
        "the Go race detector reports only races of executed interleavings; the TLA+ model says which site pairs race and the replay forces the gate-level schedules",
        "API callers read the fields of returned *Host / *MACEntry under the row read lock, as hosttable.go:22-24 and mactable.go:27 demand",
        "TLC instances: 2 MAC addresses, 2 IPv4 addresses, 2 frames, one purge round, up to 2 API callers",
        "spoof loops are paced by 6 s / 2-2.8 s timers: within a run they iterate once or twice; Close is exercised at the end of every run",
    ]
    for k in unlisted:
        vlib.log("  unlisted event seen once that did not show again (recorded in coverage.unreproduced): %s -- %s" % (k, events[k]["what"][:300]))
    cov["unreproduced"] = [{"key": k, "what": events[k]["what"], "count": events[k]["count"], "where": events[k]["where"][:2],
                            "detail": events[k]["detail"][:6000]} for k in unlisted]


def _keys_of_stress(ctx, o, want_c05):
    keys = {k for k, _, _ in o["events"]}
    if want_c05 and o["result"]:
        sn = [(i,) + stress_snap(s) for i, s in enumerate(o["result"].get("snapshots") or [])]
        bad, _ = snapshots_to_tlc(ctx, sn)
        for fs in bad.values():
            keys |= {"C09:C05:" + f for f in fs}
    return keys


def reproduce(ctx, binary, key, e):
    """Re-run the configurations in which an unlisted event was seen; True if the same key shows again."""
    if any(w.get("mode") == "minute" for w in e["where"]):
        for _ in range(2):
            if key in {k for k, _, _ in run_minute(binary)["events"]}:
                return True
        return False
    stress = [w for w in e["where"] if w.get("mode") != "replay"]
    for w in [w for w in e["where"] if w.get("mode") == "replay" and "schedule" in w][:3]:
        rep = run_replay(ctx, binary, [w["schedule"]], "confirm")
        if rep is None:
            continue
        results, evs, _ = rep
        keys = {k for k, _, _ in evs}
        for r in results.values():
            if r.get("staleDel"):
                keys.add("C09:KF_PurgeDeleteStale")
            for f in r.get("c05") or []:
                keys.add("C09:C05:" + f.split(":")[1])
            for p in r.get("panics") or []:
                keys.add("C09:panic:%s:replay" % _stable(p["msg"]))
        if key in keys:
            return True
    if stress:
        tries = (stress * 8)[:16]
        with ThreadPoolExecutor(max_workers=8) as ex:
            outs = list(ex.map(lambda a: run_stress(binary, a), tries))
        for o in outs:
            if key in _keys_of_stress(ctx, o, key.startswith("C09:C05:")):
                return True
    return False


def replay(ctx, path):
    obj = json.load(open(path))
    rp = obj["replay"]
    binary = vlib.go_build(ctx, "concdrv", race=True)
    TMP[0] = ctx.scratch
    if reproduce(ctx, binary, rp["key"], {"where": rp["where"]}):
        print("VIOLATION property=%s replay=%s" % (ctx.pid, path))
        return 1
    print("not reproduced")
    return 0
